//! HIR facts: the type-checked expression tree of every body, with paths and method calls
//! resolved to def-paths and named integer constants evaluated by the compiler.

use crate::json::Json;
use crate::mir_dump::{file_of, line_of};
use crate::obj;
use rustc_hir as hir;
use rustc_hir::def::{DefKind, Res};
use rustc_hir::def_id::{DefId, LocalDefId};
use rustc_middle::ty::{TyCtxt, TypeckResults};

struct Cx<'tcx> {
    tcx: TyCtxt<'tcx>,
    tr: &'tcx TypeckResults<'tcx>,
}

pub fn dump_body<'tcx>(tcx: TyCtxt<'tcx>, def_id: LocalDefId, crate_name: &str) -> Option<Json> {
    let dk = tcx.def_kind(def_id);
    // Closures are dumped inline in their parent body.
    if matches!(dk, DefKind::Closure | DefKind::InlineConst | DefKind::AnonConst) {
        return None;
    }
    let body = tcx.hir_maybe_body_owned_by(def_id)?;
    let tr = tcx.typeck(def_id);
    let cx = Cx { tcx, tr };
    let params: Vec<Json> = body.params.iter().map(|p| cx.pat(p.pat)).collect();
    let span = tcx.def_span(def_id);
    Some(obj! {
        "path": Json::s(tcx.def_path_str(def_id.to_def_id())),
        "crate": Json::s(crate_name),
        "kind": Json::s(format!("{:?}", dk)),
        "file": Json::s(file_of(tcx, span)),
        "line": Json::UInt(line_of(tcx, span) as u128),
        "params": Json::Arr(params),
        "body": cx.expr(body.value),
    })
}

impl<'tcx> Cx<'tcx> {
    fn res_json(&self, res: Res) -> Json {
        match res {
            Res::Def(kind, did) => {
                let mut v = vec![
                    ("res", Json::s(kind_name(kind))),
                    ("def", Json::s(self.tcx.def_path_str(did))),
                ];
                if let Some(val) = self.const_val(kind, did) {
                    v.push(("val", val));
                }
                Json::Obj(v)
            }
            Res::Local(hid) => obj! {
                "res": Json::s("Local"),
                "name": Json::s(self.tcx.hir_name(hid).to_string()),
                "id": Json::UInt(hid.local_id.as_u32() as u128),
            },
            Res::SelfCtor(impl_did) => {
                let ty = self.tcx.type_of(impl_did).instantiate_identity().skip_norm_wip();
                let def = match ty.kind() {
                    rustc_middle::ty::Adt(adt, _) => Json::s(self.tcx.def_path_str(adt.did())),
                    _ => Json::s(ty.to_string()),
                };
                obj! { "res": Json::s("SelfCtor"), "def": def }
            }
            Res::SelfTyAlias { .. } | Res::SelfTyParam { .. } => obj! { "res": Json::s("SelfTy") },
            Res::PrimTy(p) => obj! { "res": Json::s("PrimTy"), "name": Json::s(p.name_str()) },
            other => obj! { "res": Json::s("Other"), "text": Json::s(format!("{other:?}")) },
        }
    }

    fn const_val(&self, kind: DefKind, did: DefId) -> Option<Json> {
        if !matches!(kind, DefKind::Const { .. } | DefKind::AssocConst { .. }) {
            return None;
        }
        let tcx = self.tcx;
        let generics = tcx.generics_of(did);
        if generics.requires_monomorphization(tcx) {
            return None;
        }
        // Associated consts of traits have no value.
        if matches!(kind, DefKind::AssocConst { .. }) {
            let ai = tcx.opt_associated_item(did)?;
            if ai.trait_container(tcx).is_some() {
                return None;
            }
        }
        let ty = tcx.type_of(did).instantiate_identity().skip_norm_wip();
        if !(ty.is_integral() || ty.is_bool() || ty.is_char()) {
            return None;
        }
        let val = tcx.const_eval_poly(did).ok()?;
        let si = val.try_to_scalar_int()?;
        let size = si.size();
        Some(if ty.is_signed() { Json::Int(si.to_int(size)) } else { Json::UInt(si.to_uint(size)) })
    }

    fn qpath(&self, qpath: &hir::QPath<'tcx>, hir_id: hir::HirId) -> Json {
        let res = self.tr.qpath_res(qpath, hir_id);
        let mut j = self.res_json(res);
        if let Json::Obj(v) = &mut j {
            let text = match qpath {
                hir::QPath::Resolved(_, p) => {
                    p.segments.iter().map(|s| s.ident.to_string()).collect::<Vec<_>>().join("::")
                }
                hir::QPath::TypeRelative(_, seg) => format!("<_>::{}", seg.ident),
            };
            v.push(("text", Json::s(text)));
        }
        j
    }

    fn lit(&self, lit: &hir::Lit, negated: bool) -> Json {
        use rustc_ast::LitKind;
        match &lit.node {
            LitKind::Int(v, _) => {
                let v = v.get();
                obj! { "e": Json::s("lit"), "lk": Json::s("int"),
                "v": if negated { Json::Int(-(v as i128)) } else { Json::UInt(v) } }
            }
            LitKind::Bool(b) => obj! { "e": Json::s("lit"), "lk": Json::s("bool"), "v": Json::Bool(*b) },
            LitKind::Str(s, _) => obj! { "e": Json::s("lit"), "lk": Json::s("str"), "v": Json::s(s.to_string()) },
            LitKind::ByteStr(bs, _) | LitKind::CStr(bs, _) => {
                let bytes: Vec<Json> = bs.as_byte_str().iter().map(|b| Json::UInt(*b as u128)).collect();
                obj! { "e": Json::s("lit"), "lk": Json::s("bytestr"), "v": Json::Arr(bytes) }
            }
            LitKind::Byte(b) => obj! { "e": Json::s("lit"), "lk": Json::s("byte"), "v": Json::UInt(*b as u128) },
            LitKind::Char(c) => obj! { "e": Json::s("lit"), "lk": Json::s("char"), "v": Json::s(c.to_string()) },
            other => obj! { "e": Json::s("lit"), "lk": Json::s("other"), "v": Json::s(format!("{other:?}")) },
        }
    }

    fn block(&self, b: &hir::Block<'tcx>) -> Json {
        let mut stmts = Vec::new();
        for s in b.stmts {
            match &s.kind {
                hir::StmtKind::Let(l) => {
                    stmts.push(obj! {
                        "s": Json::s("let"),
                        "pat": self.pat(l.pat),
                        "init": l.init.map(|e| self.expr(e)).unwrap_or(Json::Null),
                        "else": l.els.map(|b| self.block(b)).unwrap_or(Json::Null),
                        "l": Json::UInt(line_of(self.tcx, s.span) as u128),
                    });
                }
                hir::StmtKind::Item(_) => {}
                hir::StmtKind::Expr(e) => {
                    stmts.push(obj! { "s": Json::s("expr"), "e": self.expr(e) });
                }
                hir::StmtKind::Semi(e) => {
                    stmts.push(obj! { "s": Json::s("semi"), "e": self.expr(e) });
                }
            }
        }
        obj! {
            "e": Json::s("block"),
            "stmts": Json::Arr(stmts),
            "expr": b.expr.map(|e| self.expr(e)).unwrap_or(Json::Null),
        }
    }

    fn exprs(&self, es: &[hir::Expr<'tcx>]) -> Json {
        Json::Arr(es.iter().map(|e| self.expr(e)).collect())
    }

    fn expr(&self, e: &hir::Expr<'tcx>) -> Json {
        use hir::ExprKind as K;
        let mut j = match &e.kind {
            K::ConstBlock(cb) => {
                // Inline consts share the typeck results of their enclosing body.
                let body = self.tcx.hir_body(cb.body);
                obj! { "e": Json::s("constblock"), "a": self.expr(body.value) }
            }
            K::Array(es) => obj! { "e": Json::s("array"), "elems": self.exprs(es) },
            K::Call(f, args) => obj! { "e": Json::s("call"), "f": self.expr(f), "args": self.exprs(args) },
            K::MethodCall(seg, recv, args, _) => {
                let def = self
                    .tr
                    .type_dependent_def_id(e.hir_id)
                    .map(|d| Json::s(self.tcx.def_path_str(d)))
                    .unwrap_or(Json::Null);
                obj! {
                    "e": Json::s("mcall"),
                    "name": Json::s(seg.ident.to_string()),
                    "def": def,
                    "recv": self.expr(recv),
                    "recv_ty": Json::s(self.tr.expr_ty_adjusted(recv).to_string()),
                    "args": self.exprs(args),
                }
            }
            K::Use(e, _) => obj! { "e": Json::s("use"), "a": self.expr(e) },
            K::Tup(es) => obj! { "e": Json::s("tup"), "elems": self.exprs(es) },
            K::Binary(op, a, b) => obj! {
                "e": Json::s("bin"), "op": Json::s(op.node.as_str()),
                "a": self.expr(a), "b": self.expr(b),
                "overloaded": Json::Bool(self.tr.is_method_call(e)),
            },
            K::Unary(op, a) => {
                // Fold negated literals.
                if let (hir::UnOp::Neg, K::Lit(l)) = (op, &a.kind) {
                    self.lit(l, true)
                } else {
                    obj! { "e": Json::s("un"), "op": Json::s(op.as_str()), "a": self.expr(a) }
                }
            }
            K::Lit(l) => self.lit(l, false),
            K::Cast(a, _) => obj! {
                "e": Json::s("cast"), "a": self.expr(a),
                "ty": Json::s(self.tr.expr_ty(e).to_string()),
            },
            K::Type(a, _) => self.expr(a),
            K::DropTemps(a) => self.expr(a),
            K::Let(l) => obj! {
                "e": Json::s("let"), "pat": self.pat(l.pat), "init": self.expr(l.init),
            },
            K::If(c, t, f) => obj! {
                "e": Json::s("if"), "cond": self.expr(c), "then": self.expr(t),
                "else": f.map(|f| self.expr(f)).unwrap_or(Json::Null),
            },
            K::Loop(b, label, src, _) => obj! {
                "e": Json::s("loop"),
                "src": Json::s(format!("{src:?}")),
                "label": label.map(|l| Json::s(l.ident.to_string())).unwrap_or(Json::Null),
                "body": self.block(b),
            },
            K::Match(scrut, arms, src) => {
                let arms: Vec<Json> = arms
                    .iter()
                    .map(|a| {
                        obj! {
                            "pat": self.pat(a.pat),
                            "guard": a.guard.map(|g| self.expr(g)).unwrap_or(Json::Null),
                            "body": self.expr(a.body),
                            "l": Json::UInt(line_of(self.tcx, a.span) as u128),
                        }
                    })
                    .collect();
                obj! {
                    "e": Json::s("match"),
                    "src": Json::s(format!("{src:?}")),
                    "scrut": self.expr(scrut),
                    "arms": Json::Arr(arms),
                }
            }
            K::Closure(c) => {
                let body = self.tcx.hir_body(c.body);
                // Closures share their parent's typeck results.
                let params: Vec<Json> = body.params.iter().map(|p| self.pat(p.pat)).collect();
                obj! {
                    "e": Json::s("closure"),
                    "def": Json::s(self.tcx.def_path_str(c.def_id.to_def_id())),
                    "params": Json::Arr(params),
                    "body": self.expr(body.value),
                }
            }
            K::Block(b, _) => self.block(b),
            K::Assign(a, b, _) => obj! { "e": Json::s("assign"), "a": self.expr(a), "b": self.expr(b) },
            K::AssignOp(op, a, b) => obj! {
                "e": Json::s("assignop"), "op": Json::s(op.node.as_str()),
                "a": self.expr(a), "b": self.expr(b),
                "overloaded": Json::Bool(self.tr.is_method_call(e)),
            },
            K::Field(a, ident) => obj! {
                "e": Json::s("field"), "a": self.expr(a), "name": Json::s(ident.to_string()),
            },
            K::Index(a, i, _) => obj! { "e": Json::s("index"), "a": self.expr(a), "i": self.expr(i) },
            K::Path(qp) => {
                let mut j = self.qpath(qp, e.hir_id);
                if let Json::Obj(v) = &mut j {
                    v.insert(0, ("e", Json::s("path")));
                }
                j
            }
            K::AddrOf(_, m, a) => obj! {
                "e": Json::s("addrof"), "mut": Json::Bool(m.is_mut()), "a": self.expr(a),
            },
            K::Break(dest, val) => obj! {
                "e": Json::s("break"),
                "label": dest.label.map(|l| Json::s(l.ident.to_string())).unwrap_or(Json::Null),
                "val": val.map(|v| self.expr(v)).unwrap_or(Json::Null),
            },
            K::Continue(_) => obj! { "e": Json::s("continue") },
            K::Ret(val) => obj! {
                "e": Json::s("ret"), "val": val.map(|v| self.expr(v)).unwrap_or(Json::Null),
            },
            K::Become(val) => obj! { "e": Json::s("ret"), "val": self.expr(val) },
            K::Struct(qp, fields, base) => {
                let fs: Vec<Json> = fields
                    .iter()
                    .map(|f| Json::Arr(vec![Json::s(f.ident.to_string()), self.expr(f.expr)]))
                    .collect();
                let base = match base {
                    hir::StructTailExpr::Base(b) => self.expr(b),
                    hir::StructTailExpr::DefaultFields(_) => Json::s("default-fields"),
                    _ => Json::Null,
                };
                obj! {
                    "e": Json::s("struct"),
                    "path": self.qpath(qp, e.hir_id),
                    "ty": Json::s(self.tr.expr_ty(e).to_string()),
                    "fields": Json::Arr(fs),
                    "base": base,
                }
            }
            K::Repeat(a, _) => obj! { "e": Json::s("repeat"), "a": self.expr(a) },
            K::Yield(a, _) => obj! { "e": Json::s("yield"), "a": self.expr(a) },
            K::InlineAsm(_) => obj! { "e": Json::s("asm") },
            K::OffsetOf(..) => obj! { "e": Json::s("offsetof") },
            K::UnsafeBinderCast(_, a, _) => self.expr(a),
            K::Err(_) => obj! { "e": Json::s("err") },
        };
        if let Json::Obj(v) = &mut j {
            if !v.iter().any(|(k, _)| *k == "l") {
                v.push(("l", Json::UInt(line_of(self.tcx, e.span) as u128)));
            }
            if e.span.from_expansion() && !v.iter().any(|(k, _)| *k == "x") {
                v.push(("x", Json::Bool(true)));
            }
        }
        j
    }

    fn pat_expr(&self, pe: &hir::PatExpr<'tcx>) -> Json {
        match &pe.kind {
            hir::PatExprKind::Lit { lit, negated } => self.lit(lit, *negated),
            hir::PatExprKind::Path(qp) => {
                let mut j = self.qpath(qp, pe.hir_id);
                if let Json::Obj(v) = &mut j {
                    v.insert(0, ("e", Json::s("path")));
                }
                j
            }
            #[allow(unreachable_patterns)]
            _ => obj! { "e": Json::s("constblock") },
        }
    }

    fn pat(&self, p: &hir::Pat<'tcx>) -> Json {
        use hir::PatKind as P;
        match &p.kind {
            P::Missing => obj! { "p": Json::s("missing") },
            P::Wild => obj! { "p": Json::s("wild") },
            P::Binding(mode, hid, ident, sub) => obj! {
                "p": Json::s("bind"),
                "name": Json::s(ident.to_string()),
                "id": Json::UInt(hid.local_id.as_u32() as u128),
                "mode": Json::s(format!("{mode:?}")),
                "sub": sub.map(|s| self.pat(s)).unwrap_or(Json::Null),
            },
            P::Struct(qp, fields, _) => {
                let fs: Vec<Json> = fields
                    .iter()
                    .map(|f| Json::Arr(vec![Json::s(f.ident.to_string()), self.pat(f.pat)]))
                    .collect();
                obj! { "p": Json::s("struct"), "path": self.qpath(qp, p.hir_id), "fields": Json::Arr(fs) }
            }
            P::TupleStruct(qp, pats, _) => obj! {
                "p": Json::s("tstruct"),
                "path": self.qpath(qp, p.hir_id),
                "elems": Json::Arr(pats.iter().map(|x| self.pat(x)).collect()),
            },
            P::Or(pats) => obj! {
                "p": Json::s("or"), "alts": Json::Arr(pats.iter().map(|x| self.pat(x)).collect()),
            },
            P::Never => obj! { "p": Json::s("never") },
            P::Tuple(pats, _) => obj! {
                "p": Json::s("tuple"), "elems": Json::Arr(pats.iter().map(|x| self.pat(x)).collect()),
            },
            P::Box(x) | P::Deref(x) => self.pat(x),
            P::Ref(x, ..) => self.pat(x),
            P::Expr(pe) => obj! { "p": Json::s("expr"), "v": self.pat_expr(pe) },
            P::Guard(x, g) => obj! { "p": Json::s("guard"), "pat": self.pat(x), "cond": self.expr(g) },
            P::Range(lo, hi, end) => obj! {
                "p": Json::s("range"),
                "lo": lo.map(|x| self.pat_expr(x)).unwrap_or(Json::Null),
                "hi": hi.map(|x| self.pat_expr(x)).unwrap_or(Json::Null),
                "inclusive": Json::Bool(matches!(end, hir::RangeEnd::Included)),
            },
            P::Slice(a, mid, b) => obj! {
                "p": Json::s("slice"),
                "before": Json::Arr(a.iter().map(|x| self.pat(x)).collect()),
                "mid": mid.map(|x| self.pat(x)).unwrap_or(Json::Null),
                "after": Json::Arr(b.iter().map(|x| self.pat(x)).collect()),
            },
            P::Err(_) => obj! { "p": Json::s("err") },
        }
    }
}

fn kind_name(kind: DefKind) -> &'static str {
    match kind {
        DefKind::Fn => "Fn",
        DefKind::AssocFn => "AssocFn",
        DefKind::Const { .. } => "Const",
        DefKind::AssocConst { .. } => "AssocConst",
        DefKind::Static { .. } => "Static",
        DefKind::Ctor(..) => "Ctor",
        DefKind::Struct => "Struct",
        DefKind::Enum => "Enum",
        DefKind::Variant => "Variant",
        DefKind::ConstParam => "ConstParam",
        DefKind::TyAlias => "TyAlias",
        _ => "Other",
    }
}
