#!/usr/bin/env python3
import sys, os, importlib
V=os.path.dirname(os.path.dirname(os.path.abspath(__file__)))
sys.path.insert(0, os.path.join(V,"lib")); sys.path.insert(0, os.path.join(V,"props"))
import framework
prop=sys.argv[1]
mod=importlib.import_module(prop); rep=framework.Report(prop); ctx=framework.Ctx("quick")
mod.run(ctx, rep)
for o in rep.obligations:
    print("OK " if o["ok"] else "BAD", o["key"], "|", o["detail"][:150], "|", o.get("where",""))
for n in rep.notes: print("NOTE", n)
print(rep.counters)
