#!/bin/bash
# usage: confirm_seed.sh <wt-name> <seed-id>
# Confirms a sub-agent's seeded change in its scratch worktree (builds, demo fails with / passes without, suite unchanged)
# and stores it under /verif/seeded/<seed-id>/.
WT=/tmp/wt_$1; ID=$2
set -u
cd $WT || exit 2
[ -f SEED/patch.diff ] || { echo "no SEED/patch.diff"; exit 2; }
git diff -- . ':!SEED' > /tmp/confirm_$ID.diff
if ! diff -q <(git apply --numstat SEED/patch.diff 2>/dev/null | sort) <(git diff --numstat -- . ':!SEED' | sort) >/dev/null; then echo "WARNING: patch.diff differs from the worktree's diff; using the worktree's diff"; cp /tmp/confirm_$ID.diff SEED/patch.diff; fi
echo "== build with change"; cargo build --offline 2>&1 | tail -1
ln -sfn $WT/target/debug/wild $WT/target/debug/ld   # compiler-driven tests must link with this tree's wild, not /repo's
echo "== demo WITH change"; timeout 900 bash SEED/demo.sh $WT/target/debug/wild > /tmp/confirm_${ID}_with.log 2>&1; W=$?; tail -3 /tmp/confirm_${ID}_with.log; echo "exit=$W"
echo "== demo WITHOUT change (/repo build)"; timeout 900 bash SEED/demo.sh /repo/target/debug/wild > /tmp/confirm_${ID}_without.log 2>&1; WO=$?; tail -3 /tmp/confirm_${ID}_without.log; echo "exit=$WO"
echo "== test suite with change"; cargo nextest run --workspace --no-fail-fast --tool-config-file pb:/w/lib/nextest.toml --profile pb --test-threads 8 --offline > /tmp/confirm_${ID}_suite.log 2>&1
SUM=$(grep "Summary" /tmp/confirm_${ID}_suite.log | tail -1); echo "$SUM"
FAILS=$(grep -E "^\s+FAIL" /tmp/confirm_${ID}_suite.log | sed 's/.*\] *([0-9/]*) *//' | sort -u | tr '\n' ';')
echo "fails: $FAILS"
OK=1
[ $W -ne 0 ] || { echo "NOT CONFIRMED: demo passes with the change"; OK=0; }
[ $WO -eq 0 ] || { echo "NOT CONFIRMED: demo fails without the change"; OK=0; }
# failures beyond the 4 baseline ones are re-run alone (the machine is loaded by other scratch builds; "ran for too long" flakes)
EXTRA=$(grep -E "^\s+FAIL" /tmp/confirm_${ID}_suite.log | sed 's/.*\] *([0-9/]*) *//' | sort -u | grep -v -e check_sources_format -e z-pack-relative-relocs -e symbolic-non-weak -e tls-apx-relocs)
RERUN=""
if [ -n "$EXTRA" ]; then
  while IFS= read -r line; do
    name=$(echo "$line" | sed 's/^[^ ]* *//')
    echo "re-running alone: $name"
    P=0; for try in 1 2 3 4; do if cargo nextest run --workspace --tool-config-file pb:/w/lib/nextest.toml --profile pb --offline -E "test(=$name)" 2>&1 | grep -q "1 passed"; then P=1; break; fi; sleep 20; done
    if [ $P = 1 ]; then RERUN="$RERUN$name (failed under load, passes alone);"; else echo "NOT CONFIRMED: $name fails with the change"; OK=0; fi
  done <<< "$EXTRA"
fi
# every failure is either one of the 4 baseline ones or passed when re-run alone; the run must have covered the whole suite
echo "$SUM" | grep -qE "405 tests run" || { echo "NOT CONFIRMED: suite did not run completely"; OK=0; }
SUM="$SUM $RERUN"
if [ $OK = 1 ]; then
  D=/verif/seeded/$ID; mkdir -p $D; cp -r SEED/. $D/
  python3 - "$D" "$ID" "$SUM" "$FAILS" "$W" "$WO" <<'PY'
import json,sys,os
d,i,s,f,w,wo=sys.argv[1:]
p=os.path.join(d,'meta.json')
try: m=json.load(open(p))
except Exception: m={}
m['seed_id']=i
m['confirmed']={'suite_with_change':s.strip(),'suite_failures':f,'demo_exit_with_change':int(w),'demo_exit_without_change':int(wo),
  'ran':'cargo build --offline; bash demo.sh <wt>/target/debug/wild; bash demo.sh /repo/target/debug/wild; cargo nextest run --workspace (pb profile) in the scratch worktree'}
json.dump(m,open(p,'w'),indent=1)
PY
  echo "CONFIRMED -> $D"
fi
