#!/bin/bash
# usage: mkwt.sh <name>   — scratch worktree of /repo HEAD at /tmp/wt_<name> with a copy of the build output
set -e
WT=/tmp/wt_$1
if [ -d "$WT" ]; then echo "$WT exists"; exit 0; fi
git -C /repo worktree add --detach "$WT" HEAD >/dev/null 2>&1
cp -a --reflink=auto /repo/target "$WT/target"
echo "$WT"
