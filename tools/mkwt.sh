#!/bin/bash
# usage: mkwt.sh <name>   — scratch worktree of /repo HEAD at /tmp/wt_<name> with a copy of the build output
set -e
WT=/tmp/wt_$1
if [ -d "$WT" ]; then echo "$WT exists"; exit 0; fi
git -C /repo worktree add --detach "$WT" HEAD >/dev/null 2>&1
cp -a --reflink=auto /repo/target "$WT/target"
# the copied target directory carries /repo's `ld -> /repo/target/debug/wild` symlink: compiler-driven tests must link with this tree's wild
ln -sfn "$WT/target/debug/wild" "$WT/target/debug/ld"
echo "$WT"
