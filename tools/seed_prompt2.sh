#!/bin/bash
# usage: seed_prompt2.sh Cxx <wt-name>   — second-round prompt: same as seed_prompt.py plus "previous exercises already changed ...; choose a different mechanism and site"
P=$1; WT=/tmp/wt_$2
HINT=$(python3 - "$P" <<'PY'
import json,os,sys,re
pid=sys.argv[1]; base='/verif/seeded'; out=[]
for d in sorted(os.listdir(base)):
    if d.startswith(pid+'-'):
        m=json.load(open(os.path.join(base,d,'meta.json')))
        s=re.split(r'(?<=[.;])\s',(m.get('summary') or '').strip())[0][:300]
        out.append(s)
print("- Previous exercises already made these changes; choose a DIFFERENT mechanism and a different site: " + " | ".join(out))
PY
)
python3 /verif/tools/seed_prompt.py $P $WT "$HINT"
