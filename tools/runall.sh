#!/bin/bash
# usage: runall.sh [tier]  — runs every claimed check (in parallel once the facts are cached) and prints one line each
cd "$(dirname "$0")/.."
TIER=${1:-quick}
IDS=$(python3 -c "
import json
print(' '.join(c['property_id'] for c in json.load(open('MANIFEST.json'))['checks']))")
./check C17 --tier $TIER > /tmp/runall_C17.log 2>&1   # warms the fact cache
for p in $IDS; do ( ./check $p --tier $TIER > /tmp/runall_$p.log 2>&1; echo "$p exit=$?" >> /tmp/runall_$p.log ) & 
  while [ $(jobs -r | wc -l) -ge 8 ]; do sleep 0.3; done
done; wait
for p in $IDS; do echo "$(grep -E "^$p \[" /tmp/runall_$p.log | tail -1) $(tail -1 /tmp/runall_$p.log)"; grep -h "^VIOLATION\|^  " /tmp/runall_$p.log | head -5; done
