#!/usr/bin/env python3
"""Development aid (not registered in MANIFEST): behaviour-preserving rename of the local bindings of named functions in a scratch tree.

usage: rename_locals.py <scratch-tree> <file>:<fn-name> [...]
Every `let` / `for` / closure-parameter / function-parameter binding inside the function is renamed to <name>_q (whole-word, inside the function's
text only). Names that break compilation (struct-literal shorthand, macro captures) are dropped again, iterating on `cargo check` errors.
Used to measure which rules depend on the *names* of locals (they must not: see DESIGN.md 6.3b)."""
import re, subprocess, sys, os

tree = sys.argv[1]
targets = [a.split(":") for a in sys.argv[2:]]


def fn_span(src, name):
    m = re.search(r"\bfn\s+" + re.escape(name) + r"\s*[<(]", src)
    if not m:
        return None
    i = src.index("{", m.end())
    # skip where-clauses etc.: the first '{' after the signature's closing ')' at depth 0
    depth_p = 0
    j = m.end() - 1
    while j < len(src):
        c = src[j]
        if c in "(<" and not (c == "<" and src[j - 1] == "-"):
            depth_p += 1 if c == "(" else 0
        if c == ")":
            depth_p -= 1
        if c == "{" and depth_p <= 0:
            break
        j += 1
    i = j
    d = 0
    k = i
    while k < len(src):
        if src[k] == "{":
            d += 1
        elif src[k] == "}":
            d -= 1
            if d == 0:
                return m.start(), k + 1
        k += 1
    return None


BIND = [r"\blet\s+(?:mut\s+)?([a-z_][a-z0-9_]*)\b", r"\bfor\s+([a-z_][a-z0-9_]*)\s+in\b", r"\|\s*([a-z_][a-z0-9_]*)\s*\|", r"\|\s*([a-z_][a-z0-9_]*)\s*,", r",\s*([a-z_][a-z0-9_]*)\s*\|",
        r"\bSome\(([a-z_][a-z0-9_]*)\)\s*=", r"[(,]\s*(?:mut\s+)?([a-z_][a-z0-9_]*)\s*:\s*[&A-Zu(i\[]"]
KEYWORDS = {"self", "mut", "ref", "true", "false", "_", "in", "let", "if", "else", "match", "return", "e"}


def rename(src, span, skip):
    a, b = span
    body = src[a:b]
    names = set()
    for rx in BIND:
        for m in re.finditer(rx, body):
            n = m.group(1)
            if n not in KEYWORDS and not n.startswith("_") and n not in skip and len(n) > 1:
                names.add(n)
    for n in sorted(names, key=len, reverse=True):
        # not a field access (.name), not a path segment (::name / name::), not a struct-literal field label (name:) unless it is a binding with a type
        body = re.sub(r"(?<![\w.:'])" + n + r"(?![\w!])(?!\s*::)", n + "_q", body)
        # restore field labels in struct literals `name_q: expr` that were labels, not bindings: keep heuristic simple - cargo check will tell
    return src[:a] + body + src[b:], names


skip = {}
orig = {}
for f, fn in targets:
    p = os.path.join(tree, f)
    orig.setdefault(p, open(p).read())
for it in range(6):
    cur = dict(orig)
    renamed = {}
    for f, fn in targets:
        p = os.path.join(tree, f)
        sp = fn_span(cur[p], fn)
        if sp is None:
            print("no span for", f, fn)
            continue
        cur[p], names = rename(cur[p], sp, skip.get((f, fn), set()))
        renamed[(f, fn)] = names
    for p, s in cur.items():
        open(p, "w").write(s)
    r = subprocess.run(["cargo", "check", "--offline", "-p", "libwild", "-p", "linker-utils", "--message-format=short"], cwd=tree, capture_output=True, text=True)
    errs = [l for l in r.stderr.splitlines() if "error" in l]
    if not errs:
        print("compiled after", it + 1, "iteration(s);", sum(len(v) for v in renamed.values()), "bindings renamed")
        break
    bad = set(re.findall(r"`([a-z_][a-z0-9_]*)_q`", r.stderr)) | set(re.findall(r"cannot find value `([a-z_][a-z0-9_]*)`", r.stderr))
    if not bad:
        print("\n".join(errs[:10]))
        print("cannot attribute the errors; giving up")
        for p, s in orig.items():
            open(p, "w").write(s)
        sys.exit(1)
    for k in renamed:
        skip.setdefault(k, set()).update(bad)
    print("iteration", it + 1, "dropping", sorted(bad))
else:
    print("did not converge")
    sys.exit(1)
