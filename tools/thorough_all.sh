#!/bin/bash
# runs every claimed check at the thorough tier, sequentially; prints one summary line per property
cd "$(dirname "$0")/.."
[ -x engines/mirfacts/target/release/mirfacts ] || ./setup.sh >/dev/null 2>&1
for p in $(python3 -c "
import json
print(' '.join(c['property_id'] for c in json.load(open('MANIFEST.json'))['checks']))"); do
  ./check $p --tier thorough > /tmp/thorough_$p.log 2>&1; rc=$?
  echo "$p rc=$rc $(grep -E "^$p \[" /tmp/thorough_$p.log | tail -1)"
  grep -E "^sensitivity|^WARNING|^VIOLATION|^  " /tmp/thorough_$p.log | cut -c1-300
done
