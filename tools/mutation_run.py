#!/usr/bin/env python3
"""Development aid (not registered in MANIFEST): first-order mutation run over the functions the rules anchor.

usage: mutation_run.py <scratch-tree> <n-mutants> <seed> <out.json> [file:fn ...]
For each sampled mutant (one token changed inside an anchored function: relational / arithmetic / boolean operator swapped, a negation dropped, a
call statement removed) the scratch tree is type-checked; if it compiles, every claimed check runs against it (WILD_REPO=<scratch>) and the rules
that fire are recorded. Survivors are *candidates* for triage (many are equivalent or irrelevant to the 40 properties) - nothing here is a verdict."""
import json, os, random, re, subprocess, sys, time

tree, n, seed, outp = sys.argv[1], int(sys.argv[2]), int(sys.argv[3]), sys.argv[4]
targets = [a.split(":") for a in sys.argv[5:]]
VERIF = os.path.dirname(os.path.dirname(os.path.abspath(__file__)))
sys.path.insert(0, os.path.join(VERIF, "tools"))


def fn_span(src, name):
    m = re.search(r"\bfn\s+" + re.escape(name) + r"\s*[<(]", src)
    if not m:
        return None
    depth_p = 0
    j = m.end() - 1
    while j < len(src):
        c = src[j]
        if c == "(":
            depth_p += 1
        if c == ")":
            depth_p -= 1
        if c == "{" and depth_p <= 0:
            break
        j += 1
    d = 0
    k = j
    while k < len(src):
        if src[k] == "{":
            d += 1
        elif src[k] == "}":
            d -= 1
            if d == 0:
                return j, k + 1
        k += 1
    return None


OPS = [(r" <= ", " < "), (r" < ", " <= "), (r" >= ", " > "), (r" > ", " >= "), (r" == ", " != "), (r" != ", " == "),
       (r" \+ ", " - "), (r" - ", " + "), (r" && ", " || "), (r" \|\| ", " && "), (r"\bif !", "if "), (r"\.is_some\(\)", ".is_none()"), (r"\.is_none\(\)", ".is_some()")]

cands = []
srcs = {}
for f, fn in targets:
    p = os.path.join(tree, f)
    if p not in srcs:
        srcs[p] = open(p).read()
    sp = fn_span(srcs[p], fn)
    if not sp:
        continue
    a, b = sp
    body = srcs[p][a:b]
    for rx, rep in OPS:
        for m in re.finditer(rx, body):
            # skip generics / arrows / comments / strings (cheap filters)
            ls = body.rfind("\n", 0, m.start()) + 1
            line = body[ls:body.find("\n", m.start())]
            if line.lstrip().startswith("//") or "->" in line[max(0, m.start() - ls - 3):m.end() - ls + 3] or '"' in line and line.count('"') % 2 == 0 and line.find('"') < m.start() - ls < line.rfind('"'):
                continue
            cands.append((f, fn, a + m.start(), a + m.end(), rep, rx))
    for m in re.finditer(r"\n(\s+)([a-z_][\w.]*\.(push|insert|fetch_or|store|extend|increment|allocate)\([^;\n]*\);)", body):
        cands.append((f, fn, a + m.start(2), a + m.end(2), "/* removed */ ;", "del-call"))
random.Random(seed).shuffle(cands)
print(len(cands), "candidate mutants;", n, "sampled", flush=True)

props = [c["property_id"] for c in json.load(open(os.path.join(VERIF, "MANIFEST.json")))["checks"]]
results = []
done = 0
for f, fn, s0, s1, rep, op in cands:
    if done >= n:
        break
    p = os.path.join(tree, f)
    src = srcs[p]
    mutated = src[:s0] + rep + src[s1:]
    line = src.count("\n", 0, s0) + 1
    open(p, "w").write(mutated)
    try:
        r = subprocess.run(["cargo", "check", "--offline", "-p", "libwild", "--message-format=short"], cwd=tree, capture_output=True, text=True)
        if r.returncode != 0:
            continue
        done += 1
        t0 = time.time()
        # warm the fact cache once, then all checks in parallel
        env = dict(os.environ, WILD_REPO=tree)
        subprocess.run([os.path.join(VERIF, "check"), "C17"], cwd=VERIF, env=env, capture_output=True, text=True)
        procs = {pid: subprocess.Popen([os.path.join(VERIF, "check"), pid], cwd=VERIF, env=env, stdout=subprocess.PIPE, stderr=subprocess.STDOUT, text=True) for pid in props}
        fired = {}
        for pid, pr in procs.items():
            out = pr.communicate()[0]
            v = [l.strip()[:160] for l in out.splitlines() if l.startswith("  ") and not l.startswith("   ")]
            if "VIOLATION" in out:
                fired[pid] = v[:3]
        old = src[s0:s1]
        ctx = src[src.rfind("\n", 0, s0) + 1:src.find("\n", s1)].strip()[:160]
        tests = None
        if not fired:
            # does the repository's own suite notice? (only test-passing survivors are in scope of the properties' "why tests can't")
            BASE = ("check_sources_format", "z-pack-relative-relocs", "symbolic-non-weak", "tls-apx-relocs", "llvm-dynamic")
            tr = subprocess.run("cargo nextest run --workspace --no-fail-fast --tool-config-file pb:/w/lib/nextest.toml --profile pb --test-threads 8 --offline 2>&1 | grep -E '^ +(FAIL|TIMEOUT)' | sort -u",
                                shell=True, cwd=tree, capture_output=True, text=True)
            names = {l.strip().split("] ", 1)[-1] for l in tr.stdout.splitlines()}
            extra = sorted(x for x in names if not any(b in x for b in BASE))
            tests = {"killed": bool(extra), "failing": extra[:6]}
        results.append({"file": f, "fn": fn, "line": line, "op": f"{old.strip()!r} -> {rep.strip()!r}", "context": ctx, "fired": fired, "tests": tests, "wall_s": round(time.time() - t0, 1)})
        print(done, f, fn, line, repr(old.strip()), "->", repr(rep.strip()), "fired:", sorted(fired) or "NONE", "| tests:", tests, flush=True)
        json.dump(results, open(outp, "w"), indent=1)
    finally:
        open(p, "w").write(src)
print("done", flush=True)
