#!/usr/bin/env python3
"""Regenerates MANIFEST.json from tools/claims.json (claimed checks) + properties.jsonl."""
import json, os
V = os.path.dirname(os.path.dirname(os.path.abspath(__file__)))
props = [json.loads(l) for l in open(os.path.join(V, "properties.jsonl"))]
claims = json.load(open(os.path.join(V, "tools", "claims.json")))
checks = []
na = []
for p in props:
    pid = p["id"]
    c = claims["claimed"].get(pid)
    if c:
        checks.append({
            "property_id": pid,
            "quick_cmd": f"./check {pid} --tier quick",
            "thorough_cmd": f"./check {pid} --tier thorough",
            "evidence_file": f"/verif/evidence/{pid}.json",
            "replay_cmd_template": f"./check {pid} --replay {{path}}",
            "engine": "mirfacts+rules",
            "level_claimed": {"category": "other", "text": c["text"], "design_ref": f"DESIGN.md §5 {pid}"},
            "level_note": c["note"],
            "technique": c["technique"],
        })
    else:
        na.append({"property_id": pid, "reason": claims["not_applicable"].get(pid, "designed (DESIGN.md §5), check not built yet")})
m = {
    "version": 1,
    "setup_cmd": "./setup.sh",
    "hooks": {
        "guard": "wild_verif",
        "enable": "no hooks: the checks analyse /repo's source as it is (rustc driver under cargo +nightly check)",
        "baseline_off_cmd": "cd /repo && cargo nextest run --workspace --no-fail-fast --tool-config-file pb:/w/lib/nextest.toml --profile pb --test-threads 8 --offline || cargo test --workspace --no-fail-fast --offline",
        "source_commits": claims.get("source_commits", []),
        "add_only": True,
    },
    "engines": [
        {"name": "mirfacts", "path": "engines/mirfacts", "serves_properties": sorted(claims["claimed"]),
         "kind_free_text": "rustc_private driver (RUSTC_WORKSPACE_WRAPPER under cargo +nightly check) dumping MIR (CFG, resolved callees, operands, aggregates) and type-checked HIR (resolved paths, evaluated named constants) of every workspace body as JSON facts"},
        {"name": "rules", "path": "lib + props", "serves_properties": sorted(claims["claimed"]),
         "kind_free_text": "Python rule layer: who-may-call, guarded-call (edge dominance), must-pass-through (post-dominance), value-flow (def-use origins), critical-section, table-vs-oracle, bit-provenance abstract interpretation"},
    ],
    "checks": checks,
    "notes": claims.get("notes", ""),
    "not_applicable": na,
}
json.dump(m, open(os.path.join(V, "MANIFEST.json"), "w"), indent=1)
print("claimed", len(checks), "not_applicable", len(na))
