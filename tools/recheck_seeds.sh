#!/bin/bash
# usage: recheck_seeds.sh <lane> <seed-id>...   - development aid: re-runs the repository's suite for stored seeds in a scratch worktree whose
# target/debug/ld symlink points at the worktree's own wild (a copied target directory keeps /repo's, which made compiler-driven tests link with
# /repo's binary). One JSON line per seed in /tmp/recheck_<lane>.jsonl.
LANE=$1; shift
WT=/tmp/wt_rc$LANE
if [ ! -d $WT ]; then git -C /repo worktree add --detach $WT HEAD >/dev/null 2>&1; cp -a --reflink=auto /repo/target $WT/target; fi
ln -sfn $WT/target/debug/wild $WT/target/debug/ld
BASE="check_sources_format|z-pack-relative-relocs|symbolic-non-weak|tls-apx-relocs"
for ID in "$@"; do
  cd $WT && git checkout -q . && git clean -fdq -e target >/dev/null 2>&1
  if ! git apply /verif/seeded/$ID/patch.diff 2>/dev/null; then echo "{\"id\":\"$ID\",\"result\":\"patch does not apply\"}" >> /tmp/recheck_$LANE.jsonl; continue; fi
  if ! cargo build --offline >/tmp/recheck_build_$LANE.log 2>&1; then echo "{\"id\":\"$ID\",\"result\":\"build failed\"}" >> /tmp/recheck_$LANE.jsonl; continue; fi
  ln -sfn $WT/target/debug/wild $WT/target/debug/ld
  cargo nextest run --workspace --no-fail-fast --tool-config-file pb:/w/lib/nextest.toml --profile pb --test-threads 5 --offline 2>&1 | grep -E "^ +(FAIL|TIMEOUT)" | sed 's/.*] *//' | sed 's/^([0-9 \/]*) //' | sort -u | grep -vE "$BASE" > /tmp/recheck_extra_$LANE.txt
  REAL=""
  while read -r T; do
    [ -z "$T" ] && continue
    NAME=$(echo "$T" | awk '{print $NF}')
    OK=0
    for i in 1 2 3; do
      if cargo nextest run --workspace --no-fail-fast --tool-config-file pb:/w/lib/nextest.toml --profile pb --offline -E "test(=$NAME)" 2>&1 | grep -q "1 passed"; then OK=1; break; fi
    done
    [ $OK = 0 ] && REAL="$REAL $NAME"
  done < /tmp/recheck_extra_$LANE.txt
  echo "{\"id\":\"$ID\",\"result\":\"$( [ -z "$REAL" ] && echo passes || echo fails )\",\"failing\":\"$REAL\"}" >> /tmp/recheck_$LANE.jsonl
done
cd / && git -C /repo worktree remove --force $WT
