#!/usr/bin/env python3
"""Prints the prompt given to a fresh sub-agent that is asked to break property <id> in its own worktree.
The prompt contains the property's text and the worktree path only — nothing from /verif."""
import json, sys
pid, wt = sys.argv[1], sys.argv[2]
extra = sys.argv[3] if len(sys.argv) > 3 else ""
p = next(json.loads(l) for l in open("/verif/properties.jsonl") if json.loads(l)["id"] == pid)
prop = {k: p[k] for k in ("id", "title", "statement", "quantifier", "why_tests_cant", "anchors")}
print(f"""You are working on `wild`, a fast parallel ELF linker written in Rust (davidlattimore/wild), in a scratch git worktree at {wt}. The workspace is already built (`{wt}/target`, debug profile; `cargo build --offline` in {wt} rebuilds incrementally; the binary is {wt}/target/debug/wild). There is NO network; always pass --offline to cargo. Work ONLY inside {wt} — never read or write /repo or /verif or any other worktree.

This is a mutation-seeding exercise for evaluating a verification framework: I need a realistic *defect* injected into the linker's source that breaks the property below, so that I can find out whether independent checks detect it.

PROPERTY (JSON):
{json.dumps(prop, indent=1)}

YOUR TASK
1. Read the relevant code and design a source change (to the non-test Rust sources of the workspace: libwild, linker-utils, wild, ...) that BREAKS this property for some input / schedule / history, while
   - the workspace still compiles without new warnings-as-errors,
   - the existing test suite still passes exactly as before. Run it with:
       cd {wt} && cargo nextest run --workspace --no-fail-fast --tool-config-file pb:/w/lib/nextest.toml --profile pb --test-threads 8 --offline 2>&1 | tail -15
     On the unmodified tree this gives 401 passed and exactly these 4 failures, which are expected and must stay the only failures: check_sources_format, z-pack-relative-relocs, symbolic-non-weak, tls-apx-relocs (the integration-test names contain these strings). Do not edit, add, delete or skip any existing test or test input.
   - the change looks like a plausible mistake or an innocent-looking refactor/optimisation a developer could make (a dropped guard, a flipped polarity, a statement moved across a lock/flush/check, an off-by-one in a table row, a wrong constant, one of two cooperating sites changed, an early return added, an error swallowed ...), NOT something obviously malicious and NOT a change that special-cases magic input values.
   - IMPORTANT: the defect must need something specific to manifest — a particular interleaving, a crash/fault/error at a particular point, a multi-step sequence of operations, an unusual (but valid) input or option combination, or two cooperating sites that each look fine alone. A change that ordinary use (or the existing tests) would expose at once is not wanted.
   {extra}
2. Write a DEMONSTRATION: a script {wt}/SEED/demo.sh taking the path of a wild binary as $1 (plus any helper files next to it in {wt}/SEED/), that exits 0 when the property holds for the scenario it exercises and exits non-zero (printing what went wrong) when the property is violated. It must FAIL with your change and PASS on the unmodified tree. Verify both yourself: build the modified tree (cargo build --offline), run demo.sh against {wt}/target/debug/wild; then `git stash` (or `git diff > SEED/patch.diff && git checkout -- .`), rebuild, run demo.sh again against the unmodified build, and restore your change. gcc, GNU ld, as, ar, readelf, objdump, python3 are installed (aarch64 cross tools may be present as aarch64-linux-gnu-*; check before relying on them). If the defect is a race or needs a fault, make the demo as deterministic as you reasonably can (loops, strace fault injection `strace -e inject=...`, environment knobs, many runs) and say how reliable it is.
3. Leave these files:
   - {wt}/SEED/patch.diff  — `git diff` of your source change ONLY (no test files, nothing under SEED/); it must apply with `git apply` to a clean checkout of this commit.
   - {wt}/SEED/demo.sh (+ helper inputs)
   - {wt}/SEED/meta.json   — {{"property": "{pid}", "summary": "<one paragraph: what was changed and why it breaks the property>", "needs_to_manifest": "<what specific input/schedule/fault/sequence is needed>", "files_changed": [...], "test_suite": "<the summary line you observed with the change applied>", "demo_with_change": "<observed result>", "demo_without_change": "<observed result>"}}
   Leave the worktree with your change APPLIED (uncommitted) at the end.
4. In your final message, report: the summary, the test-suite result line with the change, and the two demo results. If you could not find a change that passes the suite, say so honestly rather than weakening the requirements.

Keep the change small (typically 1–15 lines). Prefer subtle over blatant. Do not spend time on anything else.""")
