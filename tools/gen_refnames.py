#!/usr/bin/env python3
"""Regenerates lib/refnames.json: for every HIR body the rules read, the names of its local bindings in declaration order on the *reference* tree
(/repo at the time the rules were written). Facts.hir_body maps the current names back to these when the binding structure is unchanged."""
import sys, os, json, re, glob
sys.path.insert(0, os.path.join(os.path.dirname(os.path.abspath(__file__)), "..", "lib"))
import facts
F = facts.Facts("default", os.environ.get("WILD_REPO", "/repo"))
keys = sorted(F.hir().keys())
out = {}
for k in keys:
    b = F.hir_body(k, canonical=False)
    if b is None or b.get("kind") not in (None, "fn", "Fn", "AssocFn", "Closure") and False:
        continue
    names = [n for _i, n in facts.hir_bindings(b)]
    if names:
        out[k] = names
json.dump(out, open(os.path.join(os.path.dirname(os.path.abspath(__file__)), "..", "lib", "refnames.json"), "w"), indent=0)
print(len(out), "bodies")
