#!/bin/bash
# usage: mutest.sh <prop> <file-relative-to-repo> <python-expr-old> <new>   — applies textual replace in a scratch worktree and runs the check
# (development aid; not registered in MANIFEST)
set -e
PROP=$1; FILE=$2; OLD=$3; NEW=$4
WT=/tmp/wt_mut
if [ ! -d $WT ]; then git -C /repo worktree add --detach $WT HEAD >/dev/null 2>&1; fi
git -C $WT checkout -q -- .
python3 - "$WT/$FILE" "$OLD" "$NEW" <<'PY'
import sys
p,old,new=sys.argv[1:4]
s=open(p).read()
assert s.count(old)>=1, "pattern not found"
s=s.replace(old,new,1)
open(p,'w').write(s)
PY
cd /verif && WILD_REPO=$WT ./check $PROP --tier quick 2>&1 | grep -E "VIOLATION|BAD|FAIL|violat|lost" | head -8
echo "exit=$?"
git -C $WT checkout -q -- .
