#!/bin/bash
# usage: mutest.sh <prop> <file-relative-to-repo> <old> <new>   — applies a textual replace in a scratch worktree and runs the check
# (development aid; not registered in MANIFEST)
PROP=$1; FILE=$2; OLD=$3; NEW=$4
WT=/tmp/wt_mut
if [ ! -d $WT ]; then git -C /repo worktree add --detach $WT HEAD >/dev/null 2>&1; fi
git -C $WT checkout -q --detach $(git -C /repo rev-parse HEAD) 2>/dev/null
git -C $WT checkout -q -- .
python3 - "$WT/$FILE" "$OLD" "$NEW" <<'PY' || exit 2
import sys
p,old,new=sys.argv[1:4]
s=open(p).read()
assert s.count(old)>=1, "pattern not found"
s=s.replace(old,new,1)
open(p,'w').write(s)
PY
cd /verif && WILD_REPO=$WT ./check $PROP --tier quick 2>&1 | grep -E "VIOLATION|^  |new_violations|extraction failed|error" | cut -c1-400 | head -8
git -C $WT checkout -q -- .
