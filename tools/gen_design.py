#!/usr/bin/env python3
"""Regenerates the marked blocks of DESIGN.md (<!-- GEN:name --> … <!-- /GEN:name -->) from the machine-readable state:
tools/claims.json (what each check claims), evidence/*.json (rules actually declared by the last run), known_findings.json,
seeded/*/meta.json + tools/seed_results.json. Hand-written text outside the markers is left alone."""
import json, os, re
V = os.path.dirname(os.path.dirname(os.path.abspath(__file__)))
claims = json.load(open(os.path.join(V, "tools", "claims.json")))
props = [json.loads(l) for l in open(os.path.join(V, "properties.jsonl"))]
known = json.load(open(os.path.join(V, "known_findings.json")))["findings"]
seedres = json.load(open(os.path.join(V, "tools", "seed_results.json")))


def ev(pid):
    p = os.path.join(V, "evidence", pid + ".json")
    return json.load(open(p)) if os.path.exists(p) else None


def gen_summary():
    out = ["| id | title | verdict | obligations (last quick run) | deciding technique |", "|----|-------|---------|------|-----------|"]
    for p in props:
        pid = p["id"]
        c = claims["claimed"].get(pid)
        if c:
            e = ev(pid)
            n = f"{e['coverage']['discharged']}/{e['coverage']['obligations']}" if e else "-"
            out.append(f"| {pid} | {p['title']} | partial | {n} | {c['technique'].replace('static analysis: ', '')} |")
        else:
            out.append(f"| {pid} | {p['title']} | **not applicable** | - | {claims['not_applicable'].get(pid, '')} |")
    return "\n".join(out)


def gen_findings():
    out = ["| property | status | rule key | what fails (input → observed) |", "|---|---|---|---|"]
    for k in sorted(known, key=lambda x: (x["property"], x.get("status", "known") != "fixed")):
        st = k.get("status", "known")
        what = k["what"].replace("|", "\\|").replace("\n", " ")
        out.append(f"| {k['property']} | {st}{' ' + k.get('commit', '') if st == 'fixed' else ''} | `{k['key']}` | {what} |")
    return "\n".join(out)


def gen_props():
    out = []
    for p in props:
        pid = p["id"]
        c = claims["claimed"].get(pid)
        out.append(f"### {pid} — {p['title']}\n")
        if not c:
            out.append(f"**Not applicable.** {claims['not_applicable'].get(pid, '')}\n")
            continue
        out.append(c["text"] + "\n")
        out.append(f"*Not decided / trusted:* {c['note']}\n")
        e = ev(pid)
        if e:
            out.append("Rules evaluated (`props/%s.py`):\n" % pid)
            for r in e["coverage"].get("rules", []):
                out.append(f"* `{r['rule']}` — {r['text']}")
            out.append("")
        kf = [k for k in known if k["property"] == pid and k.get("status", "known") == "known"]
        fx = [k for k in known if k["property"] == pid and k.get("status") == "fixed"]
        if kf:
            out.append("Known findings (exact keys, printed as KNOWN-FINDING): " + "; ".join(f"`{k['key']}`" for k in kf) + "\n")
        if fx:
            out.append("Defects found by these rules and repaired in /repo: " + ", ".join(sorted({k.get("commit", "?") for k in fx})) + "\n")
        sd = [s for s in sorted(seedres) if s != "_comment" and s.startswith(pid + "-")]
        if sd:
            out.append("Seeded changes: " + "; ".join(f"{s} → {seedres[s]['now']}" for s in sd) + "\n")
    return "\n".join(out)


def gen_seeds():
    out = ["| seed | property | the change (one line) | needs, to manifest | first contact | reported now by |", "|---|---|---|---|---|---|"]
    base = os.path.join(V, "seeded")
    for d in sorted(os.listdir(base)) if os.path.isdir(base) else []:
        mp = os.path.join(base, d, "meta.json")
        if not os.path.exists(mp):
            continue
        m = json.load(open(mp))
        r = seedres.get(d, {})
        summ = re.split(r"(?<=[.;])\s", (m.get("summary") or "").strip())[0][:260].replace("|", "\\|")
        need = (m.get("needs_to_manifest") or "").strip()[:200].replace("|", "\\|")
        out.append(f"| {d} | {m.get('property')} | {summ} | {need} | {r.get('first', '?')} | {r.get('now', '?')} |")
    out.append("")
    out.append("Strengthenings made after a miss (each a new or tightened rule, see the rule texts in §5):")
    out.append("")
    for d in sorted(seedres):
        if d != "_comment" and seedres[d].get("strengthened"):
            out.append(f"* **{d}** — {seedres[d]['strengthened']}.")
    return "\n".join(out)


GEN = {"summary": gen_summary, "findings": gen_findings, "props": gen_props, "seeds": gen_seeds}
p = os.path.join(V, "DESIGN.md")
s = open(p).read()
for name, fn in GEN.items():
    a, b = f"<!-- GEN:{name} -->", f"<!-- /GEN:{name} -->"
    if a in s and b in s:
        i, j = s.index(a) + len(a), s.index(b)
        s = s[:i] + "\n" + fn() + "\n" + s[j:]
open(p, "w").write(s)
print("DESIGN.md regenerated blocks:", [n for n in GEN if f"<!-- GEN:{n} -->" in s])
