#!/bin/bash
# usage: rmwt.sh <name>   — removes the scratch worktree and its build output
WT=/tmp/wt_$1
git -C /repo worktree remove --force "$WT" 2>/dev/null
rm -rf "$WT"
git -C /repo worktree prune
