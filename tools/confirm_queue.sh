#!/bin/bash
# usage: confirm_queue.sh "<wt-name> <seed-id>" ...   — confirms seeds one after another, removes each worktree afterwards when confirmed
for pair in "$@"; do
  set -- $pair
  /verif/tools/confirm_seed.sh $1 $2 > /tmp/confirm_$2.out 2>&1
  if grep -q "^CONFIRMED" /tmp/confirm_$2.out; then /verif/tools/rmwt.sh $1; fi
done
