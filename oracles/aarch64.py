"""Oracle for AArch64 static relocations.

Source: "ELF for the Arm 64-bit Architecture (AArch64)" (aaelf64), section 5.7 "Relocation", tables
"Data relocations", "Group relocations to create a 16-, 32-, 48-, or 64-bit unsigned/signed data value
or address inline", "Relocations to generate 19, 21 and 33 bit PC-relative addresses", "Relocations for
control-flow instructions", "Group relocations to create a 16, 32, 48, or 64 bit PC-relative offset
inline", "Group relocations to create a 16, 32, 48, or 64 bit GOT-relative offsets inline",
"GOT-relative data relocations", "GOT-relative instruction relocations", and the TLS tables
(General Dynamic, Local Dynamic, Initial Exec, Local Exec, TLS descriptor).
Overflow behaviour of the two reference linkers: binutils bfd/elfnn-aarch64.c howto tables
(complain_on_overflow) and lld ELF/Arch/AArch64.cpp AArch64::relocate (checkInt/checkUInt/checkIntUInt).

Row: name -> dict(
  kind   = wild RelocationKind that implements the psABI operation (1:1 map, DESIGN.md C01),
  mask   = page mask variant or None,
  field  = (lo, hi_exclusive) bits of X placed in the field, or ('bytes', n) for data,
  insn   = set of acceptable instruction kinds (fields at the same position are interchangeable),
  align  = required alignment of X (2^lo for scaled fields),
  accept = [lo, hi) every value in it must be accepted (GNU ld and lld both accept), or None,
  reject = [lo, hi) every value outside it must be rejected (both reject), or None when at least one of
           the two linkers does not implement or does not check the relocation (row then unchecked),
)"""

P = lambda n: 1 << n
FULL = None

IMM12 = {"Add", "LdSt", "LdrRegister"}
MOVS = {"Movnz"}          # MOV[NZ]: sign decides between MOVN and MOVZ
MOVU = {"Movkz"}          # MOVZ / MOVK: opcode untouched
LIT = {"Ldr"}             # LDR (literal): imm19 at [23:5]


def data(kind, n, accept=None, reject=None):
    return dict(kind=kind, mask=None, field=("bytes", n), insn=None, align=1, accept=accept, reject=reject)


def insn(kind, lo, hi, kinds, accept=None, reject=None, mask=None, align=None):
    return dict(kind=kind, mask=mask, field=(lo, hi), insn=set(kinds), align=(align if align is not None else 1),
                accept=accept, reject=reject)


def s(n):
    """signed n+1-bit range  -2^n <= X < 2^n"""
    return [-P(n), P(n)]


def u(n):
    return [0, P(n)]


ROWS = {
    "R_AARCH64_NONE": data("None", 0),
    # 5.7.5 data
    "R_AARCH64_ABS64": data("Absolute", 8),
    "R_AARCH64_ABS32": data("Absolute", 4, accept=[0, P(31)], reject=[-P(31), P(32)]),
    "R_AARCH64_ABS16": data("Absolute", 2, accept=[0, P(15)], reject=[-P(15), P(16)]),
    "R_AARCH64_PREL64": data("Relative", 8),
    "R_AARCH64_PREL32": data("Relative", 4, accept=s(31), reject=[-P(31), P(32)]),
    "R_AARCH64_PREL16": data("Relative", 2, accept=s(15), reject=[-P(15), P(16)]),
    "R_AARCH64_PLT32": data("PltRelative", 4, accept=s(31), reject=s(31)),
    # unsigned group
    "R_AARCH64_MOVW_UABS_G0": insn("Absolute", 0, 16, MOVU, u(16), u(16)),
    "R_AARCH64_MOVW_UABS_G0_NC": insn("Absolute", 0, 16, MOVU),
    "R_AARCH64_MOVW_UABS_G1": insn("Absolute", 16, 32, MOVU, u(32), u(32)),
    "R_AARCH64_MOVW_UABS_G1_NC": insn("Absolute", 16, 32, MOVU),
    "R_AARCH64_MOVW_UABS_G2": insn("Absolute", 32, 48, MOVU, u(48), u(48)),
    "R_AARCH64_MOVW_UABS_G2_NC": insn("Absolute", 32, 48, MOVU),
    "R_AARCH64_MOVW_UABS_G3": insn("Absolute", 48, 64, MOVU),
    # signed group
    "R_AARCH64_MOVW_SABS_G0": insn("Absolute", 0, 16, MOVS, s(16), s(16)),
    "R_AARCH64_MOVW_SABS_G1": insn("Absolute", 16, 32, MOVS, s(32), s(32)),
    "R_AARCH64_MOVW_SABS_G2": insn("Absolute", 32, 48, MOVS, s(48), s(48)),
    # pc-relative
    "R_AARCH64_LD_PREL_LO19": insn("Relative", 2, 21, LIT, s(20), s(20), align=4),
    "R_AARCH64_ADR_PREL_LO21": insn("Relative", 0, 21, {"Adr"}, s(20), s(20)),
    "R_AARCH64_ADR_PREL_PG_HI21": insn("Relative", 12, 33, {"Adr"}, s(32), s(32), mask="SymbolPlusAddendAndPosition"),
    "R_AARCH64_ADR_PREL_PG_HI21_NC": insn("Relative", 12, 33, {"Adr"}, mask="SymbolPlusAddendAndPosition"),
    "R_AARCH64_ADD_ABS_LO12_NC": insn("AbsoluteLowPart", 0, 12, IMM12),
    "R_AARCH64_LDST8_ABS_LO12_NC": insn("AbsoluteLowPart", 0, 12, IMM12),
    "R_AARCH64_LDST16_ABS_LO12_NC": insn("AbsoluteLowPart", 1, 12, IMM12, align=2),
    "R_AARCH64_LDST32_ABS_LO12_NC": insn("AbsoluteLowPart", 2, 12, IMM12, align=4),
    "R_AARCH64_LDST64_ABS_LO12_NC": insn("AbsoluteLowPart", 3, 12, IMM12, align=8),
    "R_AARCH64_LDST128_ABS_LO12_NC": insn("AbsoluteLowPart", 4, 12, IMM12, align=16),
    # control flow
    "R_AARCH64_TSTBR14": insn("Relative", 2, 16, {"TstBr"}, s(15), s(15), align=4),
    "R_AARCH64_CONDBR19": insn("Relative", 2, 21, {"Bcond"}, s(20), s(20), align=4),
    "R_AARCH64_JUMP26": insn("PltRelative", 2, 28, {"JumpCall"}, s(27), s(27), align=4),
    "R_AARCH64_CALL26": insn("PltRelative", 2, 28, {"JumpCall"}, s(27), s(27), align=4),
    # pc-relative group
    "R_AARCH64_MOVW_PREL_G0": insn("Relative", 0, 16, MOVS, s(16), s(16)),
    "R_AARCH64_MOVW_PREL_G0_NC": insn("Relative", 0, 16, MOVU),
    "R_AARCH64_MOVW_PREL_G1": insn("Relative", 16, 32, MOVS, s(32), s(32)),
    "R_AARCH64_MOVW_PREL_G1_NC": insn("Relative", 16, 32, MOVU),
    "R_AARCH64_MOVW_PREL_G2": insn("Relative", 32, 48, MOVS, s(48), s(48)),
    "R_AARCH64_MOVW_PREL_G2_NC": insn("Relative", 32, 48, MOVU),
    "R_AARCH64_MOVW_PREL_G3": insn("Relative", 48, 64, MOVS | MOVU),
    # GOT-relative group (not implemented by lld: ranges unchecked)
    "R_AARCH64_MOVW_GOTOFF_G0": insn("GotRelGotBase", 0, 16, MOVS, s(16)),
    "R_AARCH64_MOVW_GOTOFF_G0_NC": insn("GotRelGotBase", 0, 16, MOVU),
    "R_AARCH64_MOVW_GOTOFF_G1": insn("GotRelGotBase", 16, 32, MOVS, s(32)),
    "R_AARCH64_MOVW_GOTOFF_G1_NC": insn("GotRelGotBase", 16, 32, MOVU),
    "R_AARCH64_MOVW_GOTOFF_G2": insn("GotRelGotBase", 32, 48, MOVS, s(48)),
    "R_AARCH64_MOVW_GOTOFF_G2_NC": insn("GotRelGotBase", 32, 48, MOVU),
    "R_AARCH64_MOVW_GOTOFF_G3": insn("GotRelGotBase", 48, 64, MOVS | MOVU),
    # GOT-relative data
    "R_AARCH64_GOTREL64": data("SymRelGotBase", 8),
    "R_AARCH64_GOTREL32": data("SymRelGotBase", 4, accept=s(31)),
    "R_AARCH64_GOTPCREL32": data("GotRelative", 4, accept=s(31), reject=s(31)),
    # GOT-relative instructions
    "R_AARCH64_GOT_LD_PREL19": insn("GotRelative", 2, 21, LIT, s(20), s(20), align=4),
    "R_AARCH64_LD64_GOTOFF_LO15": insn("GotRelGotBase", 3, 15, IMM12, u(15), align=8),
    "R_AARCH64_ADR_GOT_PAGE": insn("GotRelative", 12, 33, {"Adr"}, s(32), s(32), mask="GotEntryAndPosition"),
    "R_AARCH64_LD64_GOT_LO12_NC": insn("Got", 3, 12, IMM12, align=8),
    "R_AARCH64_LD64_GOTPAGE_LO15": insn("GotRelGotBase", 3, 15, IMM12, u(15), u(15), mask="GotBase", align=8),
    # TLS general dynamic
    "R_AARCH64_TLSGD_ADR_PREL21": insn("TlsGd", 0, 21, {"Adr"}, s(20), s(20)),
    "R_AARCH64_TLSGD_ADR_PAGE21": insn("TlsGd", 12, 33, {"Adr"}, s(32), s(32), mask="GotEntryAndPosition"),
    "R_AARCH64_TLSGD_ADD_LO12_NC": insn("TlsGdGot", 0, 12, IMM12),
    "R_AARCH64_TLSGD_MOVW_G1": insn("TlsGdGotBase", 16, 32, MOVS, s(32)),
    "R_AARCH64_TLSGD_MOVW_G0_NC": insn("TlsGdGotBase", 0, 16, MOVU),
    # TLS local dynamic (not implemented by lld: ranges unchecked)
    "R_AARCH64_TLSLD_ADR_PREL21": insn("TlsLd", 0, 21, {"Adr"}, s(20)),
    "R_AARCH64_TLSLD_ADR_PAGE21": insn("TlsLd", 12, 33, {"Adr"}, s(32), mask="GotEntryAndPosition"),
    "R_AARCH64_TLSLD_ADD_LO12_NC": insn("TlsLdGot", 0, 12, IMM12),
    "R_AARCH64_TLSLD_MOVW_G1": insn("TlsLdGotBase", 16, 32, MOVS, s(32)),
    "R_AARCH64_TLSLD_MOVW_G0_NC": insn("TlsLdGotBase", 0, 16, MOVU),
    "R_AARCH64_TLSLD_LD_PREL19": insn("TlsLd", 2, 21, LIT, s(20), align=4),
    "R_AARCH64_TLSLD_MOVW_DTPREL_G2": insn("DtpOff", 32, 48, MOVS | MOVU, u(48)),
    "R_AARCH64_TLSLD_MOVW_DTPREL_G1": insn("DtpOff", 16, 32, MOVS, s(32)),
    "R_AARCH64_TLSLD_MOVW_DTPREL_G1_NC": insn("DtpOff", 16, 32, MOVU),
    "R_AARCH64_TLSLD_MOVW_DTPREL_G0": insn("DtpOff", 0, 16, MOVS, s(16)),
    "R_AARCH64_TLSLD_MOVW_DTPREL_G0_NC": insn("DtpOff", 0, 16, MOVU),
    "R_AARCH64_TLSLD_ADD_DTPREL_HI12": insn("DtpOff", 12, 24, IMM12, u(24)),
    "R_AARCH64_TLSLD_ADD_DTPREL_LO12": insn("DtpOff", 0, 12, IMM12, u(12)),
    "R_AARCH64_TLSLD_ADD_DTPREL_LO12_NC": insn("DtpOff", 0, 12, IMM12),
    "R_AARCH64_TLSLD_LDST8_DTPREL_LO12": insn("DtpOff", 0, 12, IMM12, u(12)),
    "R_AARCH64_TLSLD_LDST8_DTPREL_LO12_NC": insn("DtpOff", 0, 12, IMM12),
    "R_AARCH64_TLSLD_LDST16_DTPREL_LO12": insn("DtpOff", 1, 12, IMM12, u(12), align=2),
    "R_AARCH64_TLSLD_LDST16_DTPREL_LO12_NC": insn("DtpOff", 1, 12, IMM12, align=2),
    "R_AARCH64_TLSLD_LDST32_DTPREL_LO12": insn("DtpOff", 2, 12, IMM12, u(12), align=4),
    "R_AARCH64_TLSLD_LDST32_DTPREL_LO12_NC": insn("DtpOff", 2, 12, IMM12, align=4),
    "R_AARCH64_TLSLD_LDST64_DTPREL_LO12": insn("DtpOff", 3, 12, IMM12, u(12), align=8),
    "R_AARCH64_TLSLD_LDST64_DTPREL_LO12_NC": insn("DtpOff", 3, 12, IMM12, align=8),
    "R_AARCH64_TLSLD_LDST128_DTPREL_LO12": insn("DtpOff", 4, 12, IMM12, u(12), align=16),
    "R_AARCH64_TLSLD_LDST128_DTPREL_LO12_NC": insn("DtpOff", 4, 12, IMM12, align=16),
    # TLS initial exec
    "R_AARCH64_TLSIE_MOVW_GOTTPREL_G1": insn("GotTpOffGotBase", 16, 32, MOVS, s(32)),
    "R_AARCH64_TLSIE_MOVW_GOTTPREL_G0_NC": insn("GotTpOffGotBase", 0, 16, MOVU),
    "R_AARCH64_TLSIE_ADR_GOTTPREL_PAGE21": insn("GotTpOff", 12, 33, {"Adr"}, s(32), s(32), mask="GotEntryAndPosition"),
    "R_AARCH64_TLSIE_LD64_GOTTPREL_LO12_NC": insn("GotTpOffGot", 3, 12, IMM12, align=8),
    "R_AARCH64_TLSIE_LD_GOTTPREL_PREL19": insn("GotTpOff", 2, 21, LIT, s(20), s(20), align=4),
    # TLS local exec
    "R_AARCH64_TLSLE_MOVW_TPREL_G2": insn("TpOff", 32, 48, MOVS | MOVU, u(48), s(48)),
    "R_AARCH64_TLSLE_MOVW_TPREL_G1": insn("TpOff", 16, 32, MOVS, s(32), s(32)),
    "R_AARCH64_TLSLE_MOVW_TPREL_G1_NC": insn("TpOff", 16, 32, MOVU),
    "R_AARCH64_TLSLE_MOVW_TPREL_G0": insn("TpOff", 0, 16, MOVS, s(16), s(16)),
    "R_AARCH64_TLSLE_MOVW_TPREL_G0_NC": insn("TpOff", 0, 16, MOVU),
    "R_AARCH64_TLSLE_ADD_TPREL_HI12": insn("TpOff", 12, 24, IMM12, u(24), u(24)),
    "R_AARCH64_TLSLE_ADD_TPREL_LO12": insn("TpOff", 0, 12, IMM12, u(12)),
    "R_AARCH64_TLSLE_ADD_TPREL_LO12_NC": insn("TpOff", 0, 12, IMM12),
    "R_AARCH64_TLSLE_LDST8_TPREL_LO12": insn("TpOff", 0, 12, IMM12, u(12)),
    "R_AARCH64_TLSLE_LDST8_TPREL_LO12_NC": insn("TpOff", 0, 12, IMM12),
    "R_AARCH64_TLSLE_LDST16_TPREL_LO12": insn("TpOff", 1, 12, IMM12, u(12), align=2),
    "R_AARCH64_TLSLE_LDST16_TPREL_LO12_NC": insn("TpOff", 1, 12, IMM12, align=2),
    "R_AARCH64_TLSLE_LDST32_TPREL_LO12": insn("TpOff", 2, 12, IMM12, u(12), align=4),
    "R_AARCH64_TLSLE_LDST32_TPREL_LO12_NC": insn("TpOff", 2, 12, IMM12, align=4),
    "R_AARCH64_TLSLE_LDST64_TPREL_LO12": insn("TpOff", 3, 12, IMM12, u(12), align=8),
    "R_AARCH64_TLSLE_LDST64_TPREL_LO12_NC": insn("TpOff", 3, 12, IMM12, align=8),
    "R_AARCH64_TLSLE_LDST128_TPREL_LO12": insn("TpOff", 4, 12, IMM12, u(12), align=16),
    "R_AARCH64_TLSLE_LDST128_TPREL_LO12_NC": insn("TpOff", 4, 12, IMM12, align=16),
    # TLS descriptors
    "R_AARCH64_TLSDESC_LD_PREL19": insn("TlsDesc", 2, 21, LIT, s(20), s(20), align=4),
    "R_AARCH64_TLSDESC_ADR_PREL21": insn("TlsDesc", 0, 21, {"Adr"}, s(20), s(20)),
    "R_AARCH64_TLSDESC_ADR_PAGE21": insn("TlsDesc", 12, 33, {"Adr"}, s(32), s(32), mask="GotEntryAndPosition"),
    "R_AARCH64_TLSDESC_LD64_LO12": insn("TlsDescGot", 3, 12, IMM12, align=8),
    "R_AARCH64_TLSDESC_ADD_LO12": insn("TlsDescGot", 0, 12, IMM12),
    "R_AARCH64_TLSDESC_OFF_G1": insn("TlsDescGotBase", 16, 32, MOVS, s(32)),
    "R_AARCH64_TLSDESC_OFF_G0_NC": insn("TlsDescGotBase", 0, 16, MOVU),
    "R_AARCH64_TLSDESC_CALL": data("TlsDescCall", 0),
}

# Immediate field of each instruction kind in the 32-bit instruction word: list of (lo, hi_exclusive).
# Arm ARM (DDI 0487) C6.2: ADR/ADRP immlo[30:29] immhi[23:5]; MOVZ/MOVK/MOVN imm16[20:5] (opc[30:29]
# selects N/Z); LDR (literal), B.cond imm19[23:5]; ADD (immediate), LDR/STR (unsigned offset) imm12[21:10];
# TBZ/TBNZ imm14[18:5]; B/BL imm26[25:0].
INSN_FIELDS = {
    "Adr": [(5, 24), (29, 31)],
    "Movkz": [(5, 21)],
    "Movnz": [(5, 21)],
    "Ldr": [(5, 24)],
    "LdrRegister": [(10, 22)],
    "Add": [(10, 22)],
    "LdSt": [(10, 22)],
    "TstBr": [(5, 19)],
    "Bcond": [(5, 24)],
    "JumpCall": [(0, 26)],
}
# bits outside the immediate that the encoder may legitimately rewrite
INSN_OPCODE_BITS = {"Movnz": [(23, 32)]}   # opc + fixed bits: MOVN <-> MOVZ selection by sign (bits 31..23)
