"""Oracle for x86-64 GOT/TLS relaxations.

Sources: System V ABI AMD64 supplement, B.2 "Optimize GOTPCRELX Relocations" and the TLS linker
optimisation templates (also in "ELF Handling For Thread-Local Storage", U. Drepper, section 5);
binutils bfd/elf64-x86-64.c elf_x86_64_convert_load_reloc; Intel SDM vol. 2 opcode maps
(8B /r MOV r,r/m; 8D /r LEA; C7 /0 MOV r/m,imm32 — sign-extended to 64 bits under REX.W;
03 /r ADD, 2B /r SUB, 3B /r CMP; 81 /0 ADD, 81 /5 SUB, 81 /7 CMP r/m,imm32 sign-extended; FF /2 CALL,
FF /4 JMP; E8 CALL rel32; E9 JMP rel32).

PAIRS: relaxation kind -> set of acceptable replacement relocation types, given the operand size.
An imm32 that the CPU sign-extends (REX.W forms) needs a *signed* 32-bit relocation (R_X86_64_32S /
TPOFF32); an imm32 written to a 32-bit register is zero-extended (R_X86_64_32); PC-relative forms need PC32."""
PAIRS = {
    "MovIndirectToLea": {"R_X86_64_PC32"},
    "MovIndirectToAbsolute": {"R_X86_64_32"},                                   # no REX.W: 32-bit destination, zero-extended
    "RexMovIndirectToAbsolute": {"R_X86_64_32S", "R_X86_64_TPOFF32"},           # REX.W C7 /0 sign-extends imm32
    "RexAddIndirectToAbsolute": {"R_X86_64_32S", "R_X86_64_TPOFF32"},
    "RexSubIndirectToAbsolute": {"R_X86_64_32S", "R_X86_64_TPOFF32"},
    "RexCmpIndirectToAbsolute": {"R_X86_64_32S", "R_X86_64_TPOFF32"},
    "CallIndirectToRelative": {"R_X86_64_PC32"},
    "JmpIndirectToRelative": {"R_X86_64_PC32"},
    "NoOp": {"R_X86_64_PC32", "R_X86_64_PLT32", "R_X86_64_GOTOFF64"},
    "TlsGdToLocalExec": {"R_X86_64_TPOFF32"},
    "TlsGdToLocalExecLarge": {"R_X86_64_TPOFF32"},
    "TlsGdToInitialExec": {"R_X86_64_GOTTPOFF"},
    "TlsLdToLocalExec": {"R_X86_64_NONE"},
    "TlsLdToLocalExecNoPlt": {"R_X86_64_NONE"},
    "TlsLdToLocalExec64": {"R_X86_64_NONE"},
    "TlsDescToLocalExec": {"R_X86_64_TPOFF32"},
    "TlsDescToInitialExec": {"R_X86_64_GOTTPOFF"},
    "SkipTlsDescCall": {"R_X86_64_NONE"},
}

# For the ModRM-rewriting kinds: (new opcode byte, /digit). The immediate field starts at `offset`,
# ModRM is at offset-1, the opcode at offset-2, REX (if any) at offset-3.
MODRM = {
    "MovIndirectToAbsolute": (0xC7, 0),
    "RexMovIndirectToAbsolute": (0xC7, 0),
    "RexAddIndirectToAbsolute": (0x81, 0),
    "RexSubIndirectToAbsolute": (0x81, 5),
    "RexCmpIndirectToAbsolute": (0x81, 7),
}
# byte templates: kind -> (start relative to offset, bytes, index of the imm32 inside the template or None)
TEMPLATES = {
    "CallIndirectToRelative": (-2, [0x67, 0xE8], 2),                     # addr32 call rel32
    "JmpIndirectToRelative": (-2, [0xE9, 0, 0, 0, 0, 0x90], 1),          # jmp rel32; nop
    "TlsGdToLocalExec": (-4, [0x64, 0x48, 0x8B, 0x04, 0x25, 0, 0, 0, 0, 0x48, 0x8D, 0x80], 12),
    "TlsGdToLocalExecLarge": (-3, [0x64, 0x48, 0x8B, 0x04, 0x25, 0, 0, 0, 0, 0x48, 0x8D, 0x80, 0, 0, 0, 0, 0x66, 0x0F, 0x1F, 0x44, 0, 0], 12),
    "TlsGdToInitialExec": (-4, [0x64, 0x48, 0x8B, 0x04, 0x25, 0, 0, 0, 0, 0x48, 0x03, 0x05], 12),
    "SkipTlsDescCall": (0, [0x66, 0x90], None),
    # LD -> LE (psABI / binutils elf_x86_64_relocate_section R_X86_64_TLSLD): the lea+call pair becomes padding prefixes + mov %fs:0,%rax
    "TlsLdToLocalExec": (-3, [0x66, 0x66, 0x66, 0x64, 0x48, 0x8B, 0x04, 0x25, 0, 0, 0, 0], None),
    "TlsLdToLocalExecNoPlt": (-3, [0x66, 0x66, 0x66, 0x66, 0x64, 0x48, 0x8B, 0x04, 0x25, 0, 0, 0, 0], None),
    "TlsLdToLocalExec64": (-3, [0x66, 0x66, 0x66, 0x66, 0x2E, 0x0F, 0x1F, 0x84, 0, 0, 0, 0, 0, 0x64, 0x48, 0x8B, 0x04, 0x25, 0, 0, 0, 0], None),
}
# kinds that remove a GOT indirection for an address: only valid when the symbol cannot be interposed
NEEDS_NON_INTERPOSABLE = {"MovIndirectToLea", "CallIndirectToRelative", "JmpIndirectToRelative"}

# TLSDESC rewrites that keep the destination register (psABI TLS "General Dynamic/TLSDESC -> IE/LE" templates; Intel SDM:
# C7 /0 MOV r/m64,imm32 takes the register in ModRM.rm (extended by REX.B); 8B /r MOV r64,r/m64 takes it in ModRM.reg
# (extended by REX.R), and with mod=00 rm=101 the operand is RIP-relative, for which REX.B is ignored).
# Bit strings are written MSB first: 0/1 constants, R = old REX.R (bit 2 of the byte at offset-3), r = old ModRM.reg bits 5,4,3.
REGFORMS = {
    ("TlsDescToLocalExec", (3,)): {"rex": "0100100R", "opcode": 0xC7, "modrm": "11000rrr", "imm_zero": True, "addend": 0},
    ("TlsDescToInitialExec", ()): {"rex": "01001R00", "opcode": 0x8B, "modrm": "00rrr101", "imm_zero": True, "addend": -4},
}
