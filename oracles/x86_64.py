"""Oracle for x86-64 static relocations.

Source: System V ABI, AMD64 Architecture Processor Supplement, table 4.10 "Relocation Types" (field width
and calculation), plus the overflow behaviour of the two reference linkers: binutils bfd/elf64-x86-64.c
(x86_64_elf_howto_table: complain_overflow_{signed,unsigned,bitfield,dont}) and lld ELF/Arch/X86_64.cpp
X86_64::relocate (checkInt / checkUInt / checkIntUInt). The rows for R_X86_64_8/16/32/32S were additionally
swept at their boundaries against the GNU ld and ld.lld installed in the sandbox while the design was
written (DESIGN.md appendix B.1).

accept: [lo, hi) every value in it is accepted by both linkers; reject: every value outside [lo, hi) is
rejected by both; None = not asserted."""
P = lambda n: 1 << n


def s(n):
    return [-P(n), P(n)]


def row(kind, nbytes, accept=None, reject=None):
    return dict(kind=kind, bytes=nbytes, accept=accept, reject=reject)


S31 = dict(accept=s(31), reject=s(31))
ROWS = {
    "R_X86_64_NONE": row("None", 0),
    "R_X86_64_64": row("Absolute", 8),
    "R_X86_64_PC32": row("Relative", 4, **S31),
    "R_X86_64_PC64": row("Relative", 8),
    "R_X86_64_GOT32": row("GotRelGotBase", 4, accept=[0, P(31)]),          # sources disagree on signedness
    "R_X86_64_GOT64": row("GotRelGotBase", 8),
    "R_X86_64_GOTOFF64": row("SymRelGotBase", 8),
    "R_X86_64_PLT32": row("PltRelative", 4, **S31),
    "R_X86_64_PLTOFF64": row("PltRelGotBase", 8),
    "R_X86_64_GOTPCREL": row("GotRelative", 4, **S31),
    "R_X86_64_GOTPC64": row("Relative", 8),
    "R_X86_64_GOTPC32": row("Relative", 4, **S31),
    "R_X86_64_32": row("Absolute", 4, accept=[0, P(32)], reject=[0, P(32)]),
    "R_X86_64_32S": row("Absolute", 4, **S31),
    "R_X86_64_16": row("Absolute", 2, accept=[-P(15), P(16)], reject=[-P(16), P(16)]),
    "R_X86_64_PC16": row("Relative", 2, accept=s(15), reject=[-P(16), P(16)]),
    "R_X86_64_8": row("Absolute", 1, accept=[-P(7), P(8)], reject=[-P(8), P(8)]),
    "R_X86_64_PC8": row("Relative", 1, accept=s(7), reject=s(7)),
    "R_X86_64_TLSGD": row("TlsGd", 4, **S31),
    "R_X86_64_TLSLD": row("TlsLd", 4, **S31),
    "R_X86_64_DTPOFF32": row("DtpOff", 4, **S31),
    "R_X86_64_DTPOFF64": row("DtpOff", 8),
    "R_X86_64_GOTTPOFF": row("GotTpOff", 4, **S31),
    "R_X86_64_CODE_4_GOTTPOFF": row("GotTpOff", 4, **S31),
    "R_X86_64_CODE_5_GOTTPOFF": row("GotTpOff", 4, **S31),
    "R_X86_64_CODE_6_GOTTPOFF": row("GotTpOff", 4, **S31),
    "R_X86_64_GOTPCRELX": row("GotRelative", 4, **S31),
    "R_X86_64_REX_GOTPCRELX": row("GotRelative", 4, **S31),
    "R_X86_64_CODE_4_GOTPCRELX": row("GotRelative", 4, **S31),
    "R_X86_64_CODE_5_GOTPCRELX": row("GotRelative", 4, **S31),
    "R_X86_64_CODE_6_GOTPCRELX": row("GotRelative", 4, **S31),
    "R_X86_64_TPOFF32": row("TpOff", 4, **S31),
    "R_X86_64_GOTPC32_TLSDESC": row("TlsDesc", 4, **S31),
    "R_X86_64_CODE_4_GOTPC32_TLSDESC": row("TlsDesc", 4, **S31),
    "R_X86_64_CODE_5_GOTPC32_TLSDESC": row("TlsDesc", 4, **S31),
    "R_X86_64_CODE_6_GOTPC32_TLSDESC": row("TlsDesc", 4, **S31),
    "R_X86_64_TLSDESC_CALL": row("TlsDescCall", 0),
}
