"""Immediate fields of the instruction formats written by linker-utils' encoders, as (lo, hi_exclusive)
bit ranges of the little-endian instruction word(s).

AArch64: Arm Architecture Reference Manual (DDI 0487) C6.2 — ADR/ADRP immlo[30:29] immhi[23:5];
MOVZ/MOVK/MOVN imm16[20:5] (bits[30:29] opc select N/Z/K); LDR (literal) and B.cond imm19[23:5];
ADD (immediate) and LDR/STR (unsigned offset) imm12[21:10]; TBZ/TBNZ imm14[18:5]; B/BL imm26[25:0].
RISC-V: The RISC-V Instruction Set Manual vol. I, "Base Instruction Formats" and the C extension —
U imm[31:12]; I imm[31:20]; S and B imm[31:25] + imm[11:7]; J imm[31:12]; CB offset[12:10] + [6:2];
CJ target[12:2]; CI (c.lui) nzimm[12] + [6:2].
LoongArch: LoongArch Reference Manual vol. 1, instruction formats — 1RI20 si20[24:5]; 2RI12 si12[21:10];
1RI21 offs[25:10] + offs[4:0]; I26 offs[25:0]; pcaddu18i + jirl pair si20[24:5] and offs16[25:10] of the
second word."""
AARCH64 = {
    "Adr": [(5, 24), (29, 31)], "Movkz": [(5, 21)], "Movnz": [(5, 21)], "Ldr": [(5, 24)], "LdrRegister": [(10, 22)],
    "Add": [(10, 22)], "LdSt": [(10, 22)], "TstBr": [(5, 19)], "Bcond": [(5, 24)], "JumpCall": [(0, 26)],
}
# bits outside the immediate that an encoder may rewrite, with the reason
AARCH64_EXTRA = {"Movnz": ([(23, 32)], "sf/opc/fixed bits: MOVN vs MOVZ is selected by the sign of the value")}
# position of value bit i inside the word (None = contiguous from the first field's lo)
AARCH64_LAYOUT = {"Adr": lambda i: 29 + i if i < 2 else 5 + (i - 2)}
RISCV = {
    "UType": [(12, 32)], "IType": [(20, 32)], "SType": [(7, 12), (25, 32)], "BType": [(7, 12), (25, 32)], "JType": [(12, 32)],
    "CbType": [(2, 7), (10, 13)], "CjType": [(2, 13)], "CluiType": [(2, 7), (12, 13)],
    "UiType": [(12, 32), (32 + 20, 64)],
}
RISCV_BYTES = {"UiType": 8, "CbType": 2, "CjType": 2, "CluiType": 2}
LOONGARCH = {
    "Shift5": [(5, 25)], "Shift10": [(10, 22)], "Branch26": [(0, 26)], "Branch21": [(0, 5), (10, 26)],
    "Call36": [(5, 25), (32 + 10, 32 + 26)],
}
LOONGARCH_BYTES = {"Call36": 8, "Call30": 8}

# LoongArch encoders are shared between formats of different immediate width; the field depends on the
# number of value bits the relocation row passes (2RI12 si12[21:10] vs 2RI16 offs16[25:10]).
LOONGARCH_BY_WIDTH = {
    ("Shift5", 20): [(5, 25)],
    ("Shift10", 12): [(10, 22)],
    ("Shift10", 16): [(10, 26)],
    ("Branch21", 21): [(0, 5), (10, 26)],
    ("Branch26", 26): [(0, 26)],
    ("Call36", 36): [(5, 25), (32 + 10, 32 + 26)],
}

# bits outside the immediate an encoder may touch, with the reason
LOONGARCH_EXTRA = {("Call36", 36): ([(25, 26)], "carry of the +0x8000 rounding of the high part; bit 25 is 1 in pcaddu18i's opcode, so OR-ing the carry cannot change it")}
