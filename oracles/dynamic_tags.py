"""Oracle for the fixed part of .dynamic (ELF gABI "Dynamic Section", figure 5-10; GNU extensions from glibc's elf.h / ld.so):
tag -> (kind, section) where kind is
  addr  : the entry holds the run-time address of `section`
  size  : the entry holds the size in bytes of `section` (for DT_RELASZ: of the whole .rela.dyn = its two parts)
  const : a constant / flag word that does not name a section (expected source substring given instead of a section)
Address/size pairs must name the same section, and an optional entry's presence condition must talk about that section."""
TAGS = {
    "DT_INIT": ("addr", "INIT"), "DT_FINI": ("addr", "FINI"),
    "DT_INIT_ARRAY": ("addr", "INIT_ARRAY"), "DT_INIT_ARRAYSZ": ("size", "INIT_ARRAY"),
    "DT_FINI_ARRAY": ("addr", "FINI_ARRAY"), "DT_FINI_ARRAYSZ": ("size", "FINI_ARRAY"),
    "DT_PREINIT_ARRAY": ("addr", "PREINIT_ARRAY"), "DT_PREINIT_ARRAYSZ": ("size", "PREINIT_ARRAY"),
    "DT_STRTAB": ("addr", "DYNSTR"), "DT_STRSZ": ("size", "DYNSTR"),
    "DT_SYMTAB": ("addr", "DYNSYM"), "DT_SYMENT": ("const", "size_of()"),
    "DT_VERDEF": ("addr", "GNU_VERSION_D"), "DT_VERDEFNUM": ("const", "verdef_count"),
    "DT_VERNEED": ("addr", "GNU_VERSION_R"), "DT_VERNEEDNUM": ("const", "verneed_count"),
    "DT_VERSYM": ("addr", "GNU_VERSION"),
    "DT_DEBUG": ("const", "lit:0"),
    "DT_JMPREL": ("addr", "RELA_PLT"), "DT_PLTRELSZ": ("size", "RELA_PLT"), "DT_PLTREL": ("const", "DT_RELA"),
    "DT_PLTGOT": ("addr", "GOT"),
    "DT_RELA": ("addr", "RELA_DYN_RELATIVE"), "DT_RELASZ": ("size", "RELA_DYN_RELATIVE+RELA_DYN_GENERAL"), "DT_RELAENT": ("const", "RELA_ENTRY_SIZE"),
    "DT_RELACOUNT": ("count", "RELA_DYN_RELATIVE"),
    "DT_RELR": ("addr", "RELR_DYN"), "DT_RELRSZ": ("size", "RELR_DYN"), "DT_RELRENT": ("const", "RELR_ENTRY_SIZE"),
    "DT_ANDROID_RELR": ("addr", "RELR_DYN"), "DT_ANDROID_RELRSZ": ("size", "RELR_DYN"), "DT_ANDROID_RELRENT": ("const", "RELR_ENTRY_SIZE"),
    "DT_HASH": ("addr", "HASH"), "DT_GNU_HASH": ("addr", "GNU_HASH"),
    "DT_FLAGS": ("const", "dt_flags()"), "DT_FLAGS_1": ("const", "dt_flags_1()"),
    "DT_BIND_NOW": ("const", "lit:0"), "DT_SYMBOLIC": ("const", "lit:0"), "DT_TEXTREL": ("const", "lit:0"),
    "DT_AARCH64_VARIANT_PCS": ("const", "lit:0"), "DT_RISCV_VARIANT_CC": ("const", "lit:0"),
    "DT_NULL": ("const", "lit:0"),
}
# flag-style entries whose presence condition must test the matching DF_* bit
FLAG_BITS = {"DT_BIND_NOW": "DF_BIND_NOW", "DT_SYMBOLIC": "DF_SYMBOLIC", "DT_TEXTREL": "DF_TEXTREL"}
