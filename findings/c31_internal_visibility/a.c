__attribute__((visibility("internal"))) int foo_internal(void){return 1;}
__attribute__((visibility("hidden"))) int foo_hidden(void){return 2;}
int foo_default(void){return foo_internal()+foo_hidden();}
