int use(void); int cb(void){return 5;} int main(void){return use()==17997005?0:1;}
