    .data
    .globl tbl
tbl:
    .long target
    .long 0x11223344
    .text
    .globl target
target:
    ret
    .globl _start
_start:
    lea tbl(%rip), %rsi
    mov (%rsi), %eax
    mov $60, %eax
    xor %edi, %edi
    syscall
