#include <stdio.h>
void foo(void);
void *lib_addr_of_foo(void);
int main(void) {
  void *a = (void*)foo;
  void *b = lib_addr_of_foo();
  printf("%s\n", a == b ? "same" : "DIFFERENT");
  return a == b ? 0 : 1;
}
