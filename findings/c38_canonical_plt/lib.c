void foo(void) {}
void *lib_addr_of_foo(void) { return (void*)foo; }
