extern __thread int wx __attribute__((weak, tls_model("initial-exec"), visibility("hidden")));
int *get(void){ return &wx; }
