.globl _start
.text
_start:
  ret
.section .data.a,"aw"
.balign 1
.byte 1
.section .data.b,"aw"
.balign 1
.quad _start
