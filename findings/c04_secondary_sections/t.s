    .section .a,"a",@progbits
    .globl a_sym
a_sym: .byte 1,2,3
    .section .b,"a",@progbits
    .p2align 6
    .globl b_sym
b_sym: .quad 0x1122334455667788
    .text
    .globl _start
_start:
    lea b_sym(%rip), %rax
    mov $60, %eax
    xor %edi, %edi
    syscall
