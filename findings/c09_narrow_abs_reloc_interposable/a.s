    .data
    .globl tbl
tbl:
    .long foo
    .long 0x11223344
    .text
    .globl foo
foo:
    ret
