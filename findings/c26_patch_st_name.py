import sys, struct
data=bytearray(open(sys.argv[1],'rb').read())
shoff=struct.unpack_from('<Q',data,0x28)[0]; shentsize,shnum=struct.unpack_from('<HH',data,0x3A)
for i in range(shnum):
    off=shoff+i*shentsize
    name,typ,flags,addr,offset,size,link,info,align,entsize=struct.unpack_from('<IIQQQQIIQQ',data,off)
    if typ==2: # SYMTAB
        for j in range(size//24):
            so=offset+j*24
            st_name,st_info,st_other,st_shndx,st_value,st_size=struct.unpack_from('<IBBHQQ',data,so)
            if st_shndx==0 and (st_info>>4)==1 and st_name!=0:
                struct.pack_into('<I',data,so,0x7ffffff0)
                print("patched sym",j)
open(sys.argv[2],'wb').write(data)
