import struct,sys
# minimal ET_REL for LoongArch64 with one R_LARCH_B16 against local label `target` in .text
EM=258
text=bytearray()
def w(x): text.extend(struct.pack('<I',x))
# _start: beq $a0,$a1, <field preset to 0x3c00 (non-zero)>
field=int(sys.argv[1],0)
w((0b010110<<26)|((field&0xffff)<<10)|(4<<5)|5)   # beq a0,a1
w(0x03400000)  # nop (andi zero,zero,0)
w(0x03400000)
w(0x03400000)
# target at offset 16
w(0x4c000020)  # jirl zero, ra, 0 (ret)
shstr=b'\0.text\0.rela.text\0.symtab\0.strtab\0.shstrtab\0'
strtab=b'\0_start\0target\0'
def sym(name,info,shndx,value,size=0): return struct.pack('<IBBHQQ',name,info,0,shndx,value,size)
symtab=sym(0,0,0,0)+sym(0,3,1,0)+sym(8,0x00,1,16)+sym(1,0x10,1,0)   # null, section, target(local), _start(global)
rela=struct.pack('<QQq',0,(2<<32)|64,0)  # offset 0, sym 2 (target), R_LARCH_B16=64, addend 0
off=64
secs=[]
def add(data,align=8):
    global off
    off=(off+align-1)//align*align
    o=off; off+=len(data); return o
blob=bytearray()
o_text=add(bytes(text),4); o_rela=add(rela); o_sym=add(symtab); o_str=add(strtab,1); o_shstr=add(shstr,1)
shoff=(off+7)//8*8
def sh(name,typ,flags,offset,size,link=0,info=0,align=1,entsize=0): return struct.pack('<IIQQQQIIQQ',name,typ,flags,0,offset,size,link,info,align,entsize)
shdrs=sh(0,0,0,0,0)+sh(1,1,6,o_text,len(text),align=4)+sh(7,4,0x40,o_rela,len(rela),link=3,info=1,align=8,entsize=24)+sh(18,2,0,o_sym,len(symtab),link=4,info=3,align=8,entsize=24)+sh(26,3,0,o_str,len(strtab))+sh(34,3,0,o_shstr,len(shstr))
eh=b'\x7fELF'+bytes([2,1,1,0])+b'\0'*8+struct.pack('<HHIQQQIHHHHHH',1,EM,1,0,0,shoff,0x43,64,0,0,64,6,5)
out=bytearray(shoff+len(shdrs))
out[0:64]=eh
for o,d in ((o_text,text),(o_rela,rela),(o_sym,symtab),(o_str,strtab),(o_shstr,shstr)): out[o:o+len(d)]=d
out[shoff:]=shdrs
open(sys.argv[2],'wb').write(out)
