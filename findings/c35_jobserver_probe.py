import os, subprocess, sys, fcntl
r,w=os.pipe()
os.write(w,b'++++')
os.set_inheritable(r,True); os.set_inheritable(w,True)
env=dict(os.environ, MAKEFLAGS=f"-j5 --jobserver-auth={r},{w}")
env.update({k:v for k,v in [a.split('=',1) for a in sys.argv[1].split(',') if a]})
p=subprocess.run(sys.argv[2:], env=env, pass_fds=(r,w))
fl=fcntl.fcntl(r,fcntl.F_GETFL); fcntl.fcntl(r,fcntl.F_SETFL,fl|os.O_NONBLOCK)
import time; time.sleep(0.5)
try: n=len(os.read(r,100))
except BlockingIOError: n=0
print("exit",p.returncode,"tokens left in jobserver:",n,"of 4")
