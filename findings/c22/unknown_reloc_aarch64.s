.text
.globl _start
_start:
  bl foo
  ret
foo:
  ret
.data
.quad _start
