.globl _start
.text
_start: ret
.section .init_array,"aw"
.balign 4
.long 7
.section .ctors,"aw"
.balign 4
.long 5
.long 6
