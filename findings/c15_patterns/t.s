.globl _start
.text
_start: ret
.section myfoo,"a"
.quad 1
.section ".foo*bar1","a"
.quad 2
.section ".fooXbar1","a"
.quad 3
.section .te2,"a"
.quad 4
