int foo(void){return 2;}
