int foo(void){return 1;}
