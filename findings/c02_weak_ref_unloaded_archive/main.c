extern int foo(void) __attribute__((weak));
int main(void){ return foo ? foo() : 0; }
