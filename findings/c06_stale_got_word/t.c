__attribute__((visibility("hidden"), tls_model("initial-exec"))) __thread int tv = 5;
int get(void) { return tv; }
