.section .text.caller,"ax",%progbits
.balign 16
.globl entry_b
.type entry_b,%function
entry_b:
  b .Lcallee
.text
.balign 4
wrong_target:
  mov x0, #1
  ret
.space 0x8100000
.Lcallee:
  mov x0, #0
  ret
