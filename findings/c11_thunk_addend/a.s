.text
.balign 4
.globl _start
.type _start,%function
_start:
  bl entry_b
  mov x8, #93
  svc #0
