#!/bin/sh
# Builds the fact-extraction driver and warms the dependency artefacts (offline, from files on disk).
set -e
cd "$(dirname "$0")"
export CARGO_NET_OFFLINE=true
(cd engines/mirfacts && cargo build --release --offline)
python3 - <<'PY'
import sys
sys.path.insert(0, "lib")
import facts
d = facts.ensure_facts("default")
print("facts ready:", d)
PY
